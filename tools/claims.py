# -*- claims table, exec'd by gen_manifest.py -*-
PENDING = "checker for this property is not built yet in this commit (see DESIGN.md section 3 for the planned static rules); not claimed until it runs"
for _n in range(1, 21):
    na(f"C{_n:02d}", PENDING)

claim(
    "C06", "proof",
    "Every shape-function lambda (19 Lagrange classes, 4 Hermite families; ~1 200 lambdas) is translated from its AST into an exact polynomial over Q. Kronecker property, partition of unity, completeness up to the element order and every entry of the 1st-4th derivative tables are decided as polynomial identities by normal form, i.e. for all points of the reference element - the quantifier sampling cannot reach. The accessor rule checks by label interpretation that the evaluators index the tables as [p, f, n].",
    "Trusted: Python's ast parser, the exact polynomial class sa/alg.py, the table interpreter sa/xeval.py (literals, lambdas, np.array/reshape). Coefficients typed as 15-digit decimal approximations (EULER_BERNOULLI4/5) are accepted within the binary64 evaluation-error bound of the lambda itself and counted separately in the evidence.",
    "AST -> exact polynomial normal form (abstract interpretation of table code); label interpretation of the evaluator",
    "DESIGN.md section 3, C06",
)

claim(
    "C01", "proof",
    "The patch test is decided through its classical decomposition (Irons / Strang-Fix), each part a polynomial or rational identity: completeness and true gradient tables of all 19 bases, exactness of the factory's stiffness quadrature on the consistency integrals adj(J).grad N_i of straight-sided elements with symbolic vertices, one Kelvin-Mandel convention across the projection helpers and the strain operator, Hermite completeness to degree 3, and the whole isoparametric chain (Get_F_e_pg, Inv, Get_dN_e_pg, Get_B_e_pg) interpreted at the symbolic reference point reproducing the constant gradient / strain of a linear field. What is decided is this set of necessary-and-jointly-sufficient element-level conditions, not the number returned by simu.Solve().",
    "Assumes unique solvability (C02), exact scatter-add (C03), exact elimination (C04). Quadrangles/hexahedra/prisms use one generic rational straight-sided geometry in R1.6 (identity in the reference coordinates exact, in the vertex coordinates at a generic point). Trusted: sa/alg.py, sa/xeval.py, sa/xarray.py.",
    "exact polynomial / rational-function normal forms of the interpreted source (abstract interpretation of table and index code)",
    "DESIGN.md section 3, C01",
)
claim(
    "C02", "other",
    "Structural clauses only - the spectrum of an assembled matrix is a run-time quantity and is not decided. Decided: every element operator of Operators/Bilinear.py, interpreted on one element with opaque geometric factors, is the congruence wJ*X^T S X in the interleaved dof layout; the number of Gauss points the factory selects is enough for the rank a two-element patch must reach (counting bound, plus exact rank in Q(sqrt d) of the glued reference patch for every face type, which is invariant under affine maps); factory rules have positive weights; the Timoshenko bending/shear split partitions a diagonal D.",
    "Assumes SPD constitutive matrices (C11) and wJ > 0. Rank is decided for two-element affine patches only; arbitrary meshes are not decided. Segment rules (Gauss-Legendre) are handled by the counting bound.",
    "interpretation of operator code on symbolic element data; exact rank over Q / Q(sqrt d); table folding of Gauss_factory",
    "DESIGN.md section 3, C02",
)
claim(
    "C03", "other",
    "Index arithmetic of the assembly is decided by interpreting the index-building functions on symbolic node numbers (dof = node*dof_n+comp, rows/cols of flattened element matrices, block layout of N); the cached CSR reduction map is checked structurally (same filtered group tuple for data and map, map reads only its cache key, inv looked up in the map's own pattern, connectivity immutable); (K,C,M,F) slot order is a tuple-order agreement between Assembly, all producers and all unpacking sites.",
    "numpy/scipy semantics (repeat, reshape, ravel, coo->csr duplicate summation, searchsorted, bincount) are assumed, not verified. Numerical equality with an independent summation is not decided.",
    "label / symbolic-index interpretation + AST provenance rules",
    "DESIGN.md section 3, C03",
)
claim(
    "C04", "other",
    "The elimination solver is interpreted on a block-labelled system: the linear solve receives A[U,U] and b[U]-A[U,K]x[K] and its result lands in x[U] while x[K] keeps the prescribed values; known/unknown dofs are a mask and its complement; the Dirichlet vector is built by the duplicate-summing constructor; the orphan-node diagonal dominates every return; every SolverType has a branch and convergence flags are consumed; Newton-incremental values are subtracted before elimination. Genuine defects found are listed as known findings (Lagrange path with duplicated Dirichlet entries; unchecked Krylov convergence flag).",
    "External solvers are trusted to solve the system they receive when they report convergence. Residual size and agreement between back-ends are not decided.",
    "abstract interpretation over block selectors and mask/complement domain; must-pass-through; enum exhaustiveness; unused-result rule",
    "DESIGN.md section 3, C04",
)
claim(
    "C05", "proof",
    "The four hand-written case tables of the time schemes (evaluation-point states, system-matrix weights, history right-hand side + system matrix, corrector) are interpreted per AlgoType branch into linear forms over (K,C,M) x (u_np1,u_n,v_n,a_n) with coefficients in Q(dt,beta,gamma,alpha). Decided by normal form, i.e. for every prior state, step size and parameter value: weights = derivatives of the evaluation states; A u - b == K u_t + C v_t + M a_t - F; corrector satisfies the documented update relations and the evaluation states are the documented evaluation points of the corrected state; the algebraic lemmas behind energy conservation (midpoint, Newmark 1/4-1/2) and decay (backward Euler); every AlgoType is handled; denominators cannot vanish on the accepted parameter ranges (three known findings: alpha=0 parabolic, beta=0 Newmark/HHT).",
    "Assumes the linear solve (C04) and symmetric K, M (C02). Floating-point behaviour over many steps is not decided. Reference relations are the documented scheme definitions (Solvers.AlgoType docstrings, Hughes 1987).",
    "AST -> linear forms with rational-function coefficients; identity by normal form",
    "DESIGN.md section 3, C05",
)
claim(
    "C07", "proof",
    "Quadrature tables are read from the source as exact numbers (rationals, quadratic surds; 15-digit decimals converted exactly). Decided: every point inside the reference element (exact sign), weights sum to the reference measure, exactness on every monomial up to the computed degree >= documented order; the factory if/elif table folded over all ElemType x MatrixType pairs; exact integration of det J and x det J (measure, centroid) on straight-sided elements with symbolic vertices.",
    "Rules typed as decimal literals are compared with the literal-precision tolerance 5e-14 (stated, not tuned). numpy's leggauss(n) is trusted to be the n-point Gauss-Legendre rule.",
    "exact evaluation of tables in Q / Q(sqrt d); constant folding of the factory; polynomial support analysis of det J",
    "DESIGN.md section 3, C07",
)

claim(
    "C10", "other",
    "Equality of two solves is not decidable statically; decided are necessary conditions that each correspond to a confirmed (and repaired) defect class: the block matrix applied on the right of the beam N/B matrices is the global->local frame (interpreted with symbolic axes: rows must be i, j, i x j) at all five product sites; Get_Pmat is, entry by entry, the Kelvin-Mandel / Voigt matrix of eps -> p eps p^T as a polynomial identity in the entries of p; Apply_Pmat's generated einsum spells P M P^T / P^T M P for all rank combinations; the matrix is invariant under rescaling of the axes and exactly orthogonal for rational orthogonal axes of non-unit length.",
    "Loads and constraints transformed by the user, hyperelastic/thermal frame indifference and the equality of transformed solutions are not decided.",
    "interpretation of frame / change-of-basis code on symbolic axes; polynomial identities; exact evaluation at rational rotations",
    "DESIGN.md section 3, C10",
)
claim(
    "C11", "proof",
    "The stiffness and compliance literals of the transversely isotropic and orthotropic laws are interpreted entry by entry as rational functions of the moduli and their product is the identity by normal form (for all moduli); the isotropic plane-stress law is the Schur complement of the 3-D law identically in (E, v) and plane strain its in-plane block; the 2-D reduction takes the [0,1,5] block of the compliance (plane stress) or stiffness (plane strain); notation flags reach the result (differential interpretation); lazy-update typestate (descriptor -> Need_Update -> getter updates and clears) is structural.",
    "Positive-definiteness over the admissible parameter set and the accuracy of np.linalg.inv are not decided. Rotation of the tensor is covered by C10 (Get_Pmat / Apply_Pmat).",
    "AST -> rational functions, identity by cross-multiplication; differential interpretation for flag influence; typestate rules",
    "DESIGN.md section 3, C11",
)
claim(
    "C12", "other",
    "The protocol dispatch of FeArray depends on run-time shapes and is not decided. Decided: closed-form Det/Inv/Trace/Transpose/TensorProd equal the tensor operation for symbolic entries (polynomial / rational identities); generated and literal einsum subscripts folded over their finite rank domain equal the contraction they are for; reducer tables agree and negative axes are handled; matrix coefficients are broadcast with tensor_ndim=2 at every call site; a FeArray subscripted with two scalar leading indices is not used in arithmetic without np.asarray.",
    "numpy's __array_ufunc__/__array_function__ dispatch, alignment on actual shapes (Ne == nPg == dim collisions) is not decided by this check.",
    "interpretation of closed forms on symbolic matrices; finite-domain folding of subscript generators; call-site rules",
    "DESIGN.md section 3, C12",
)
claim(
    "C16", "other",
    "Every Result() dispatcher (7 simulation classes, each dimension / dof configuration; 358 advertised names) is interpreted on a labelled two-node stub: names folded out of Results_Available() are pushed through the if/elif chain; a name that falls through, raises or indexes past its array is a violation; component results must return the right column (x->0,y->1,z->2) of the right field (u/v/a). The strain/stress extractor is interpreted on a symbolic Kelvin vector (components unscaled, von Mises^2 == 3/2 s:s, 2-D == 3-D at zz=yz=xz=0). Known findings: the Beam result table (F8).",
    "Numerical values, reactions and the energy identity beyond matching quadrature/law/thickness wiring are not decided.",
    "finite-domain constant folding of string dispatch tables + label interpretation; polynomial identity for von Mises",
    "DESIGN.md section 3, C16",
)
claim(
    "C17", "proof",
    "Calc_C is interpreted for all 14 SplitType values (2-D and 3-D) in a non-commutative matrix algebra (atoms C, S, projP, projM, IxI, sqrtC; scalar selectors Rp, Rm; relations C.S = Id, sqrtC.isqrtC = Id). With projM = Id - projP and Rm = 1 - Rp the sum cP + cM is selector-free and equals C (lambda IxI + 2 mu Id for Miehe/Amor) by normal form: the positive and negative parts add up to the undamaged stress and energy for every strain state at once. Structural rules: projM and the last eigen-projector are defined as complements; (Ne, nPg) masks must be applied with both axes (known finding F10: 3-D projector cases are classified per element); the history field is the point-wise maximum with committed writers only; regularisation tables are exhaustive.",
    "Agreement of the closed-form eigen-projectors with an eigendecomposition, finiteness at degenerate states and monotonicity of the solved damage are not decided.",
    "interpretation in a non-commutative polynomial algebra; mask-rank dataflow; writer sets",
    "DESIGN.md section 3, C17",
)
claim(
    "C18", "proof",
    "For each built-in hyperelastic law (NeoHookean, MooneyRivlin, CiarletGeymonat, SaintVenantKirchhoff, HolzapfelOgden) the AST of Compute_W / Compute_dWde / Compute_d2Wde is interpreted into the energy as an expression in the invariants and the assembled stress / tangent as linear forms over the tensor atoms dIk/dC, d2Ik/dC2, dIi/dC (x) dIj/dC; every coefficient is compared with the symbolic derivative of W (absent terms must have a zero derivative, or a tensor that _state.py defines as zero). Reference state: W = 0 and zero stress at C = I. The laws read the state only through invariants of C (objectivity by construction).",
    "sympy (tooling venv) is used as rewriting engine, cross-checked by 60-digit evaluation at random rational points where the normal form is not reached. Tensor derivatives of the invariants (_state.py), non-linear operators, discrete energy conservation and AutoDiff laws are not decided.",
    "AST -> symbolic expressions; derivative identities by normal form (exp-log-rational powers, I3 = t^6)",
    "DESIGN.md section 3, C18",
)

claim(
    "C08", "other",
    "Measures of real meshes, closed boundaries and point location on gmsh meshes depend on floating-point geometry and are not decided. Decided on the exact reference coordinates: every face / surface / segment row of the 8 volume classes is coplanar (collinear), bounding, covers each face (edge) exactly once, and the node triple Get_pointsInElem builds from it (its own statements are interpreted) gives a non-zero outward normal; 2-D contours are counter-clockwise with the reference area; boundary element types agree with face sizes; the 3-D point-location test orients its normals by the element itself; the rotation matrix is orthogonal with determinant 1 and Symmetry is the Householder reflection (polynomial identities modulo the unit-vector relations); |det F| is used for measures.",
    "The nearest-node element search heuristic (F22 in DESIGN.md) is outside static reach. Normals at Gauss points and embedded surfaces are not covered.",
    "exact rational geometry on interpreted tables; polynomial identities with triangular reduction; structural rules",
    "DESIGN.md section 3, C08",
)
claim(
    "C09", "other",
    "The load routines are interpreted on labelled stubs: each public routine hands the right integration dimension to the integrator and multiplies by the thickness exactly once in 2-D and never in 3-D; the integrator, run on one symbolic boundary element, returns sum_p wJ_p f(x_p) N_n(x_p) (interpolated density for nodal arrays) aligned with dof(node, unknown), with the mass quadrature and exclusively selected elements; a point load is divided by the node count once; pressure uses the normals restricted to the first inDim components. Resultant and moment identities then follow from partition of unity / linear completeness (C06) and exact quadrature (C07).",
    "Equality with an analytical integral for a given density and the averaged nodal normals are not decided.",
    "label / symbolic interpretation of the integrator and dispatch code",
    "DESIGN.md section 3, C09",
)
claim(
    "C13", "other",
    "Both Integrate_e loops are interpreted on a recording field stub: entry (i, j) is the form evaluated with trial (i//dof_n, i%dof_n) and test (j//dof_n, j%dof_n), times wJ, summed over Gauss points; Assemble scatters with the matrix maps (bilinear) / the vector map and column 0 (linear); the weak-form simulation fills slots (K, C, M, F) with one thickness factor; the value and gradient a Field contributes must depend on the active node and, for vector fields, the active dof (known finding F25: Field.__call__ ignores the dof).",
    "Equality of integrated matrices for arbitrary user forms is not decided; user and built-in operators share the convention K[i, j] = a(N_i, N_j).",
    "interpretation on recording stubs; provenance of sparse-constructor arguments",
    "DESIGN.md section 3, C13",
)
claim(
    "C14", "other",
    "Inductive one-step argument over histories: inventory of derived state (25 memoised methods, assembled matrices) with read sets; every method storing to an attribute a memoised method reads reaches clear_cached_computed_values; every public mutator of what a linear simulation's assembly reads reaches Need_Update (directly, by descriptor, setter or _Notify); simulation-level caches keyed by an element group whose geometry they read are cleared on mesh events; mesh motions and coordinate assignment write every group and notify; Get_K_C_M_F re-assembles iff dirty.",
    "Numerical identity with a fresh object and arrays mutated by the user through accessors are not decided. Read sets are closed over the simulation's own module (documented in the evidence).",
    "effect analysis (attribute stores / reads) + call-graph reachability of invalidators",
    "DESIGN.md section 3, C14",
)
claim(
    "C15", "other",
    "Per simulation class: keys Set_Iter reads are keys Save_Iter stores; every attribute Save_Iter commits is restored by Set_Iter from the stored dict (known finding F11: the phase-field history field); Get_results and its callees store nothing and never read self.folder; values stored in an iteration dict are fresh copies and no code writes the live solution arrays in place; Mesh.Save / Load_Mesh agree on tuple order by parameter provenance; every Result override restores the requested iteration first.",
    "Equality of restored numbers, file-system behaviour and MPI merges are not decided.",
    "writer/reader key agreement; effect analysis; alias rules; tuple-order provenance",
    "DESIGN.md section 3, C15",
)
claim(
    "C19", "other",
    "Only the effect clause is decided: everything reachable from Behavior.Integrate inside the InElastic package stores to no attribute and writes in place to no alias of the committed-state parameter (interprocedural alias analysis); the committed state has only the writers construction / lazy zeros / Save_Iter / Set_Iter, assembly stores the trial state only, Integrate is called only from assembly and MaterialPoint.Run; every local Newton update passes the multiplier bound; the no-internal-variable path is elastic.",
    "Admissibility, dissipation, tangent consistency and agreement of the two local solvers are inequalities / derivatives over run-time paths: not decided.",
    "call-graph reachability + effect analysis + interprocedural alias / in-place analysis",
    "DESIGN.md section 3, C19",
)
claim(
    "C20", "other",
    "Partition truth, reproducibility and ghost-layer sufficiency depend on gmsh's partitioner and on MPI runs that cannot be executed here: not decided. Decided: energies / reactions restrict vector and operator rows to the owned dofs and reduce; every np.searchsorted haystack has sorted provenance (or is reported as unproven); the ghost layer is built from all other ranks' elements touching an owned node and the group rows are unique(owned + ghost) with partition data in parameter order; Merge maps nodes with the offsets used to shift connectivities.",
    "Only single-process-invisible structural clauses are decided.",
    "structural / provenance rules over the partition and reduction code",
    "DESIGN.md section 3, C20",
)


# ---- clauses added after the seeded rounds (appended to the claims above) ----
def _more(pid, text):
    CHECKS[pid]["text"] = CHECKS[pid]["text"].rstrip() + " " + text


_more("C01", "Also decided: the beam strain operators of every Euler-Bernoulli / Timoshenko element class and beam dimension, interpreted on a straight symbolic element, annihilate the rigid-body motions and reproduce (up to one sign per row) the axial strain, twist, curvatures and shear angles of every representable polynomial field (R1.7); the strain/stress component extraction and the per-element reduction (R16.4, R16.7).")
_more("C02", "Also decided: beam strain operators annihilate exactly the rigid-body motions and no row vanishes or mixes planes (R2.7); the 2-D thickness rescale of K, C, M is guarded by a condition the simulation's model class can satisfy (R2.8).")
_more("C03", "Also decided: the looked-up linear index of the CSR map is row*ncol+col by provenance (R3.5).")
_more("C04", "Also decided: the bordered Lagrange-multiplier system, interpreted with recording sparse-matrix stubs: every multiplier row, its symmetric column and its right-hand side carry one common scale factor (R4.7).")
_more("C08", "Also decided: every face row of the face tables is a valid face with an outward normal (prism padding included); node index spaces of the element group (local rows of coord/nodes versus global ids of connect, tags and node lists) are never mixed, by a flow-insensitive interprocedural type inference over the class (R8.6).")
_more("C09", "Also decided: the nodal-array branch matches intensities to nodes by identity for an unsorted node list larger than the element (exact numpy semantics of argsort/searchsorted/broadcast_to in the interpreter); Beam.add_lineLoad integrates every unknown with its own intensity against its own row of the beam N matrix through the Lagrange/Hermitian split (R9.7).")
_more("C11", "Also decided: _Parameter.__set__ raises Need_Update on every completing path (must-pass-through; only isinstance(instance, Updatable) may guard it) and __get__ hands out a copy; the rotated laws use the Get_Pmat / Apply_Pmat identities of R10.2-R10.3.")
_more("C14", "Also decided: in multi-field simulations with one memo flag per problem, every statement replacing the solution field of one problem is followed on every path by lowering the memo flag of each other problem (R14.6, obligation transferred through private helpers to their call sites).")
_more("C15", "Also decided: Save_Iter records the current-mesh index attribute and Set_Iter switches mesh whenever the recorded index differs from that same attribute (R15.7).")
_more("C16", "Also decided: the per-element strain/stress reduction extracts at every Gauss point before averaging (R16.7); Calc_Reaction, interpreted for every AlgoType member, is K u (+ C v parabolic, + C v + M a for every member of Get_Hyperbolic_Types()) (R16.8).")
_more("C17", "Also decided: under HistoryDamage the bounded damage is stored as the simulation's damage, under BoundConstrain the lower bound is the current damage; no model function writes the driving-energy array it receives in place (interprocedural alias analysis).")
_more("C18", "Also decided: the fixed-rule strain-path quadrature of TimeQuadratureStressTensor, interpreted with symbolic weights for several rules and coefK values, averages dW and the s-weighted d2W over states on the segment between the two end states only (R18.6).")
_more("C19", "Also decided: the plane-stress condensation is the Schur complement of the zz row/column of a general non-symmetric tangent (rational-function identity, R19.5); hardening / back-stress / stress functions in the local residual and Jacobian are evaluated at slots of (committed state + increment), R and dR at the same expression (R19.6).")


# ---- clauses added in the third round (generic history / aliasing rules, protocol model, semantic round trips) ----
_more("C12", "Since round 3 the protocol overrides themselves ARE decided, under a stated model of numpy's subclass protocols (sa/femodel.py: operators are ufuncs dispatched to __array_ufunc__, public numpy functions to __array_function__, indexing / view / reshape keep the subclass): FeArray.__array_ufunc__, __array_function__, _align, __wrap, _FeShape, _Base, T, __matmul__, __rmatmul__, dot, ddot, the generated reducers, reshape, integrate, asfearray and broadcast are interpreted from the source on symbolic arrays with Ne == nPg == dim collisions, and every result (value and FeArray/ndarray type) is compared with the plain numpy operation on the tensors at each (e, p): all rank pairs and leading-shape variants of + - * /, field-constant and constant-field, @ / dot / ddot for ranks 1, 2, 4 with field and constant operands, transposes, sum / prod / max / min / mean over every axis through the method and the np. route, keyword-passed fields, the constructor decision table (R12.7, ~800 obligations); no array kept in a class-level container is handed out without a copy (R12.8).")
CHECKS["C12"]["note"] = "The model of numpy's protocols is the trusted base (stated in sa/femodel.py); functions outside the modelled set are not decided. Known finding F40: numpy functions outside _REDUCERS that consume the (Ne, nPg) axes are typed by shape coincidence."
CHECKS["C12"]["technique"] = "abstract interpretation of the FeArray implementation under a protocol model, compared with per-point tensor semantics on symbolic arrays; finite-domain folding of subscript generators; call-site rules"
_more("C13", "Since round 3: forms over the grammar (u, v, grad, Sym_Grad, Trace, Transpose, dot / ddot / @, scalar / field / constant-tensor coefficients on either side, 23 forms for scalar and vector fields) are evaluated twice - by interpreting the repository's Field, FeArray and BiLinearForm / LinearForm.Integrate_e source on symbolic shape-function data, and by plain Python on per-point reference tensors (sa/formspec.py) - and the integrated element arrays are compared entry by entry (R13.8); no gradient buffer is shared between the trial field and its copy (R13.9); the evaluation-mode flag of a Field is lowered on every path (R13.10).")
_more("C14", "Since round 3: setters store and reach their invalidation / notification on every completing path, guards on the object's current state included (R14.7); no control flow on np.allclose / np.isclose in the kernels and mutators (R14.8); every hand-rolled memo (guarded compute-and-store into an attribute) has each input in its key, immutable, or reset by each method that changes it - violations come with the witness method (R14.9); memoised methods take value arguments only (R14.10); no in-place write through a local alias of private state (R14.11), no class-level array buffer shared by instances (R14.12), Get_K_C_M_F returns whole copies (R14.13); loops over the element groups visit every group and no per-group value is used after the loop (R14.14, R14.15); raised mode flags are lowered (R14.16); the mesh setter designates and observes the assigned mesh whatever mesh was current (R14.17); the inputs of the system size (Lagrange conditions, Dirichlet dofs) raise Need_Update (R14.3b).")
_more("C15", "Since round 3: Load_Mesh(Mesh.Save(mesh)) is interpreted on recorder stubs: same element groups in the same order, each with its connectivity, coordinates, partition data by name and tags (R15.5, replaces the structural tuple-order rule); no memo of what was read survives a later save (R15.8); Save_Iter overrides are idempotent commits (R15.12); the mesh setter index invariant (R15.11); no in-place write through aliases of stored state (R15.10).")
_more("C20", "Since round 3: the mesh save / load round trip of the partition data by interpretation (R20.8); the owned nodes of a multi-group mesh are the union without repetition (R20.9, interpreted on overlapping groups).")
_more("C04", "Since round 3: every dof-sized operand of the reduced solve (x0, lb, ub) is restricted to the unknown dofs (R4.1); the Newton increment of a dof is (sum of its entered values) - current value, also when the dof is entered several times (R4.6, interpreted on the raw list [3, 5, 3]); dof(node, unknown) for every ordered selection of the unknowns (R3.1, 30 orderings).")
_more("C03", "Since round 3: Get_K_C_M_F returns whole copies (R3.7); R3.1 over every ordered selection of unknowns; group loops of the assembly visit every group (R3.8).")
_more("C05", "Since round 3: no memo of a scheme-dependent quantity survives a change of the scheme parameters (R5.8, hand-rolled memo coverage with witness; R5.9 memoised methods take value arguments).")
_more("C07", "Since round 3: no control flow on approximate comparisons between the tables and the measures (R7.6), the coordinate setters store and invalidate on every path (R7.7), the rule arrays are not shared between Gauss objects (R7.8).")
_more("C01", "Since round 3: no tolerance-gated shortcut in the kernels the patch test runs through (R1.8); no per-group treatment placed after the loop over the element groups (R1.9).")
_more("C02", "Since round 3: |det F| element by element (R8.5 shared), orthonormal stored member frames on exact inclined directions (R10.8 shared), member abscissa vs frame direction (R10.9 shared, known finding F41), no per-group treatment after the group loop (R2.9).")
_more("C08", "Since round 3: the residual of the inverse isoparametric map vanishes identically at xP = x(xi) on generic straight-sided quadrangles / hexahedra / prisms and the affine closed form inverts simplices (R8.8); no memo of a geometric quantity survives a coordinate change (R8.9); no in-place write through aliases of the stored coordinates (R8.11); the point-location loop visits every element group (R8.12).")
_more("C09", "Since round 3: R9.7 is now stated on a member with an arbitrary (symbolic) frame: the nodal load of a global component g is sum_p wJ_p f_g sum_l P[g,l] N_local[l] whatever route each unknown takes; Get_GaussCoordinates_e_pg keeps the order of an unsorted element selection (R9.11); queries do not write stored coordinates through aliases (R9.10); load loops visit every group (R9.12).")
_more("C10", "Since round 3: no memo keyed by an object whose axes it reads (R10.6, R10.7); the stored member frame is orthonormal for any given vertical axis on exact inclined directions (R10.8); the shape-function derivative used by the beam operators is taken along the fibre direction of the member frame in all embeddings and both drawing directions (R10.9, known finding F41); the global-component line load of R9.7.")
_more("C16", "Since round 3: full-tensor results are the unscaled Kelvin components (R16.4 extended); the storage location (per node / per element) of a result is not inferred from a size coincidence (R16.10, known findings F36a/b); the staggered memo flags (R14.6 shared); result loops visit every group (R16.11).")
_more("C17", "Since round 3: polarity of the isotropic splits - the positive part is built from (Rp, projP) only - in plane stress, plane strain and 3-D (R17.7); the trace-sign selectors on concrete states (R17.8); Save_Iter commits are idempotent (R17.9).")
_more("C18", "Since round 3: no memo of the step-start state (R18.8-R18.10).")
_more("C19", "Since round 3: the multiplier column of the local Jacobian is the derivative of the residual with respect to dGamma for every row polynomial in it, with the state read at (committed + increment) on both sides (R19.11, polynomial identity over opaque leaves); Save_Iter commits are idempotent (R19.10).")

# ---- third session, second part (DESIGN 7.8)
_more("C01", "Since round 4: the stored beam frame (R10.8) and the Lagrange-multiplier rows with the faithful sparse vector of prescribed values and out-of-order dofs (R4.7) are shared with this property.")
_more("C02", "Since round 4: Construct_local_matrix_system of Elastic, Thermal, PhaseField (both problems), InElastic and WeakForms interpreted over the degree-in-thickness domain: in 2-D every returned array carries the thickness exactly once for both truth values of every model flag (R2.10); the collinear-axis fallback of the beam frame (R10.8, repaired F51).")
_more("C03", "Since round 4: the cached-pattern assembly is interpreted - the CSR returned by __Assemble_csr / __Get_csr_map equals the scatter-add of the element entries on two groups, with an absent slot, matrix and vector slots, repeated assembly (R3.9; the structural R3.3 / R3.5 are retired); a request for one problem's system leaves every other problem stale (R3.10).")
_more("C04", "Since round 4: the orphan list is exactly the unreferenced node numbers below Nn, orphans at the back of the numbering included (R4.10, Mesh.__init__ interpreted); a LagrangeCondition hands the solver (s c, s value) with one common factor (R4.11); the Newton-Raphson driver (R5.11 shared).")
_more("C05", "Since round 4: step sequencing solve -> corrector -> commit (R5.10) and the Newton-Raphson driver (R5.11) interpreted with scripted solvers; the parameters a scheme runs with are the documented ones - as given for newmark / hht / midpoint, beta = 1/4 (1 + alpha)^2 and gamma = 1/2 + alpha for hht_newmark (R5.12, table frozen from the AlgoType documentation).")
_more("C06", "Since round 4: the evaluation path _Eval_Functions(N, Get_Local_Coords()) gives the identity for every element class, with the integer type numpy gives the node-coordinate tables of 11 classes modelled (a buffer that inherits it truncates) (R6.9).")
_more("C07", "Since round 4: the geometric chain does not inherit an integer type from the node coordinates (R7.9, repaired F53: area 3.0 instead of 3.5); inDim is 3 / 2 / 1 by the non-zero z / y coordinates of either sign (R7.10).")
_more("C08", "Since round 4: Rotate / Translate apply c + R (x - c) with the angle in radians and the matrix (not its transpose) (R8.13); the default candidate set of the point location holds the element containing each coordinate on stretched meshes, single-point queries (R8.14, repaired F46); Translate / Rotate / Symmetry / coord assignment move every element group and notify (R8.15, interpreted on recorder groups); the inverse-map residual on elements embedded in space (R8.8 variants).")
_more("C09", "Since round 4: a point load with several unknowns pairs each value with the dof (node, unknown) it belongs to (R9.5); the beam shape-function matrix reproduces every admissible polynomial field row by row, ry = -w', rz = v' (R9.13).")
_more("C10", "Since round 4: R9.7 and the notation / rotation rule R11.9 are shared with this property; the collinear fallback of the beam frame (R10.8, repaired F51).")
_more("C11", "Since round 4: the axis guards of the law constructors give one verdict whatever the common length of the axes and for a pair and its mirror image, and the frame kept is the given one (R11.7, repaired F45); the notifier raises its own flag before notifying (R11.8); Voigt and Kelvin-Mandel input of the same material give the same law for axes at a generic angle, Get_Pmat / Apply_Pmat interpreted (R11.9). The syntactic 'axis assigned from Normalize(...)' test is retired (false alarm on F45).")
_more("C12", "Since round 4: Det / Inv / Trace on stacks whose leading axes have the size of the matrices (R12.1); Transpose / Trace / Det / Inv handed a scalar or vector field never read the (Ne, nPg) axes as matrix axes (R12.9, repaired F47).")
_more("C13", "Since round 4: forms whose integrand is a (Ne, nPg) field or a (Ne, nPg, 1) field in either kind of form, constant-left matrix products on vector fields (R13.8, 32 forms, repaired F48); Assemble interpreted with the modelled csr_matrix (R13.2).")
_more("C14", "Since round 4: history committed by Save_Iter / restored by Set_Iter is re-initialised by the effective mesh setter of its class (R14.19, repaired F49); notification last (R14.20); per-problem memo interpreted (R14.21); Set_Iter across meshes for every order of visits (R14.22); a store outside the guard of the invalidation, guard on the new value alone (R14.3b path-sensitive); mesh motions on recorder groups (R14.4m replaces the textual loop test); snapshots of observed parameters (R14.18, known finding F42).")
_more("C15", "Since round 4: Set_Iter passes an array for every field of the running time scheme - the stored one or zeros - so no live field survives a restore (R15.14); paths recorded at write time are resolved against the folder of the write (R15.13, known finding F43).")
_more("C16", "Since round 4: beam strain results are the generalised strains conjugate to N / Mx / My / Mz, unscaled (R16.13, repaired F52); the node-element incidence matrix stacks the groups in the order the element results are numbered (R16.14); zero time step reaching a division (R16.12, known finding F44).")
_more("C17", "Since round 4: Sigma+- == c+- : eps entry by entry for non-symmetric split stiffnesses (R17.10); no call site inside the simulation classes asks Set_Iter for the history reset (R17.11).")
_more("C18", "Since round 4: EVERY non-linear element operator is interpreted end to end on one symbolic element through the repository's own kinematics, FeArray algebra and dof reordering with a generic polynomial stored energy: residual == d(energy)/dU, tangent == d(residual)/dU under the documented coefK convention (SecondPiolaKirchhoff, ActiveStress, KelvinVoigt with damping == d(residual)/dV, TimeQuadrature for two coefK, Gonzalez with residual . du == Delta W), 2-D symbolic and 3-D along coordinate lines (R18.12); follower pressure and penalty contact against their surface integrals, partly penetrating element (R18.13); Green-Lagrange kinematics De / Deta as polynomial identities (R18.11); the Clenshaw-Curtis rule itself in exact arithmetic for 1..7 points (R18.15); mutators of the state a decorator-memoised method reads clear the memo (R18.14, repaired F50).")
_more("C19", "Since round 4: a function given dt passes it to every callee that takes dt (R19.14); in a convergence loop the committed state handed to Integrate is loop-invariant (R19.15); zero dt reaching a division (R19.13, known finding F44); snapshot of the elastic law in Behavior (R19.12, known finding F42); the internal variables do not survive a mesh replacement (R14.19, repaired F49).")
_more("C20", "Since round 4: the save / load round trip distinguishes the owned nodes from the nodes of the part (R20.8 stub completed).")

_more("C03", "The complex branch of the cached-pattern assembly (bincount of the real and of the imaginary parts) is interpreted with a formal imaginary unit: complex matrix and vector slots equal the scatter-add of complex element entries (R3.9).")
_more("C08", "The bounding-box preselection of the point location returns every coordinate inside the element's bounds for integer lattices in image order, x-major order and shuffled, and for floats, far bounds included (R8.16, repaired F54).")
_more("C13", "Forms with a complex coefficient keep their imaginary part (R13.8, complex kind, repaired F55).")
_more("C17", "The 3-D closed-form eigen-decomposition is interpreted in exact arithmetic on Q diag(a, b, c) Q^T with a rational rotation and every repetition pattern, mixed patterns inside one element: eigenvalues sorted, projectors rank-one orthogonal idempotents resolving the tensor (R17.12); projP equals the derivative of the positive part built from the known eigenvectors, projP + projM == identity (R17.13); every arccos / arcsin argument of the model is clipped to [-1, 1] (R17.14) (repaired F56; the former known findings F10 are repaired by the same commit).")

# round 5 (DESIGN 7.10)
_more("C01", "Since round 5: mesh motions hand every element group the moved coordinates and re-initialise its memoised factors (R1.11, real group objects); the change-of-basis identities R10.2 / R10.3 are shared with this property.")
_more("C02", "Since round 5: Get_invF_e_pg is the point-wise inverse of Get_F_e_pg on curved TRI6 / TETRA10 (R2.12); the built-in anisotropic operator with a general tensor A (R2.1); the 1-D coefficient table of FeArray.broadcast, per element on the coincidence Ne == nPg (R2.11); members on the x axis drawn towards -x (R10.9, repaired F41).")
_more("C03", "Since round 5: one slot fed by a real group and a complex group, in both orders (R3.9, 18 instances); the sparsity pattern is built from positions only: no narrow integer values in a duplicate-summing constructor, no value-dependent slot query (R3.11).")
_more("C04", "Since round 5: the bordered multiplier system holds exactly ONE row per constrained dof with the sum of its entered values, no empty row, and its size agrees with _Bc_Lagrange_dim (R4.7 rewritten as a bijection rows <-> dofs, repaired F14a); with a Lagrange condition present every selectable SolverType is served by a direct factorisation (R4.12, _Solve_Axb interpreted for each member).")
_more("C05", "Since round 5: the commit receives the corrector's VALUES (an in-place edit of the returned rates is seen) (R5.10); selecting a time scheme leaves the committed u, v, a and every attribute other than the scheme descriptor unchanged (R5.14); scheme setters validate before they store (R5.13, repaired F62).")
_more("C06", "Since round 5: Get_N_pg / Get_dN_pg / Get_ddN_pg / Get_dddN_pg / Get_ddddN_pg of every Lagrange class equal the exact k-th derivatives of the shape functions at two rational points (R6.10, 95 instances; the syntactic getter form of R6.6 is retired for these).")
_more("C07", "Since round 5: Get_weightedJacobian_e_pg == |det F| w with the rule's own negative weights and both element orientations (R7.11).")
_more("C08", "Since round 5: Mesh.Evaluate_dofsValues_at_coordinates -> Get_Mapping -> _Get_Mapping interpreted END TO END on two triangles with a symbolic linear field, points on the shared edge / at a shared vertex / inside, candidate elements ascending, descending and repeated (R8.19, repaired F68); the iterative inverse map is selected for a general QUAD4 as meshed and mirrored (R8.20); |det F| w (R8.21); motions re-initialise the memo of every group (R8.15 on real groups); Calc_projector rows are single interpolations (R8.17, repaired F60); reflected normals (R8.18, known finding F59).")
_more("C09", "Since round 5: a load whose nodes bound no element is an empty condition through the integrator, BoundaryCondition, Mesh.Get_normals and Get_Elements_Nodes (R9.15, repaired F67); the mass rule each element type uses for loads is exact to its documented order (R9.17); boundary groups are re-initialised by every mesh motion (R9.16); load entry points with a problemType default are overridden together (R9.14, repaired F61); emptiness tests are not counts (R9.9).")
_more("C10", "Since round 5: R10.9 runs on the beam element classes themselves (repaired F41); the embedding dimension (R10.11); stiffness and compliance are turned by the same material -> global rotation (R10.12, R10.13); reflected normals (R10.10, known finding F59).")
_more("C11", "Since round 5: integer parameter arrays are held as floats (R11.10, repaired F57); the heterogeneity test of every law reads every parameter its matrices read (R11.11, repaired F58); Anisotropic._Behavior on an integer-typed Voigt matrix with coupling terms (R11.12); R11.2 reports a compliance rotated the other way instead of aborting.")
_more("C12", "Since round 5: constants written as lists / nested lists on either side of * and + for every field rank (R12.7, +48 obligations); the value table of the 1-D coefficient forms of FeArray.broadcast.")
_more("C13", "Since round 5: values of VECTOR fields in forms (u.dot(v), (A @ u).dot(v), v.dot(b), (u @ b)(v @ b)): the shape function is carried by the active component (R13.8, 40 forms, repaired F25); the built-in anisotropic operator equals the form for a non-symmetric A (R13.11); the element system holds every given form whatever time scheme is selected (R13.3).")
_more("C14", "Since round 5: Mesh.inDim / dim read after the groups changed their embedding equal those of a Mesh constructed on them (R14.23, repaired F69).")
_more("C15", "Since round 5: no function of the simulations / models writes into a parameter whose default is a mutable literal (R15.15); WeakForms.Set_Iter across time schemes (R15.14, repaired F63).")
_more("C16", "Since round 5: Behavior.Compute_stress hands its state to the plane-stress completion and to the stress evaluation with no elapsed time (R16.16); every guard on material.active_stress decides 'contributes' the same way for nowhere / everywhere / partly active fields (R16.17); state threading by parameter name (R16.15).")
_more("C17", "Since round 5: the 2-D closed-form decomposition on exact equibiaxial / zero states mixed with generic ones: projectors (R17.15) and projP == d(eps+)/d(eps) shear entry included (R17.16); square roots of computed discriminants are clamped (R17.17) (repaired F65); the history field is kept per element group (R17.18, repaired F66); 3-D uniaxial states along the global axes, an exact 0/0 is reported as NaN (R17.12).")
_more("C18", "Since round 5: the adaptive strain-path rule interpreted on three elements stopping on levels (1, 3, 1): each element's stress and tangent are its accepted rule on its own path (R18.17); the active-stress guards (R18.16).")
_more("C19", "Since round 5: Behavior.__Flow interpreted with recording stand-ins on a material with a yield surface and a Maxwell branch: the Newton update ends with the projection __Bound, and the tangent is C - C.dudeps[eps_p] - sum g_i C.dudeps[eps_v_i] from the final Jacobian whether or not a point flows (R19.18); Compute_stress state threading (R19.16, R19.17).")
_more("C20", "Since round 5: Mesh.Merge interpreted on three meshes around a shared corner (exact coincidence search and component labelling): coincide <=> same merged number, coordinates follow the mapping (R20.10); a single mesh mixing element types (R20.11, repaired F70).")

_more("C01", "Since round 6: Get_invF is the point-wise inverse also on mirrored TRI6 / QUAD4 / TETRA4 (R1.12); the beam frame parity R10.1 is shared with this property.")
_more("C02", "Since round 6: mirrored elements in the inverse-Jacobian rule (R2.12, 5 instances); assignment of a beam structure (R2.13); the thickness of 2-D meshes lying in space, planar and tilted (R2.10, repaired F78).")
_more("C03", "Since round 6: one slot fed by THREE groups of three different sizes, the middle one absent, the last complex (R3.9, 30 instances); every case re-interpreted with the magnitudes written in the source (block / buffer sizes) scaled down to 3: what is assembled does not depend on such a constant; assembled matrices do not share the memoised pattern arrays (R3.12, repaired F71).")
_more("C04", "Since round 6: a 3-D hinge leaves the listed rotations free (R4.13, repaired F75); connection dofs (R4.14); the convergence flag of the Krylov backends is read (R4.5, repaired F14b); bounds of the bounded solver are taken on the unknown dofs, also when cut by a symbolic size (R4.1).")
_more("C05", "Since round 6: EVAL, the right-hand side and the corrector interpreted at states some of whose parts vanish (rest with an initial acceleration, released state ...) are the general expressions restricted to that state: no value-dependent shortcut (R5.15, 35 instances); the model's assembled vector F and the Neumann vector enter the right-hand side of every scheme with weight 1 (R5.16).")
_more("C07", "Since round 6: _Simu.center is the mass-weighted centroid component by component (R7.12, repaired F77); Integrate_e of tensor fields (R7.13); the mesh centroid over all main groups (R7.14).")
_more("C09", "Since round 6: the Euler-Bernoulli line load uses the frame of the MEMBER, not the geometric frame of the element (R9.7); a parameter is not read in a per-group loop before that loop rebinds it (R9.18).")
_more("C10", "Since round 6: N, B and the shear-recovery operator of the four beam classes, interpreted with a symbolic frame block P, equal (operator of the aligned member) @ P in the plane and in space (R10.14, 48 instances); the active stress is the Kelvin-Mandel vector of tau T T^T (R10.15).")
_more("C11", "Since round 6: Orthotropic / TransverselyIsotropic._Behavior interpreted at 50 exact parameter points accept the moduli iff the compliance is positive definite - 2 x 2 minors and determinant, stiff axis first, second or last (R11.13, repaired F79).")
_more("C12", "Since round 6: transposes of rank-3 fields (R12.7); the direct and reflected operators of Field take their operands in the order written, on non-commuting symbolic operands (R12.10); two-output ufuncs, where= masks, the var / std methods (R12.7, repaired F72-F74).")
_more("C13", "Since round 6: the 1-D coefficient table (R13.12) and the reflected operators (R13.13) are shared with this property; a load written as a linear form and the same load applied with add_volumeLoad are advanced the same way by every time scheme (R13.14); the thickness of a weak-form simulation follows the mesh dimension (R13.3, repaired F78).")
_more("C14", "Since round 6: the observer entry point of every simulation class, interpreted from the all-up-to-date state: a model event (own model or another observed model object) leaves exactly the flags Need_Update() leaves (R14.25, 16 instances).")
_more("C15", "Since round 6: Save_Iter -> Set_Iter round trip per scheme (R15.16, repaired F76); the phase-field history protocol interpreted beside a reference history - trial evaluations commit nothing, Save_Iter commits the last evaluation, Set_Iter(i, resetAll=True) rebuilds the history of iteration i (R15.17); no store to an attribute of X after pickle.dump(X) (R15.18).")
_more("C16", "Since round 6: the beam operators internal forces are read with carry the frame block (R16.18); Hooke's law per point, sigma[e,p] = C[e(,p)] eps[e,p] and psi = 1/2 sigma.eps, for a constant, per-element and per-point stiffness with Ne == nPg (== d) (R16.19).")
_more("C17", "Since round 6: the history protocol interpreted (R17.19, replaces the statement-shape parts of R17.5 which fired on np.maximum): the committed field never decreases, also when the mesh is moved between the solve and the commit; the irreversibility bounds reach the bounded solver on the unknown dofs (R17.20).")
_more("C18", "Since round 6: _StrainPathState interpreted: C(s) = C_n + s (C_np1 - C_n) for numeric and symbolic s (R18.18); the four midpoint relations the discrete energy balance rests on (R18.19).")
_more("C19", "Since round 6: Behavior.__Spectral interpreted with the callee recorded: sigma_y is the yield stress itself (below and above 1), trial stress, committed p, dt and the returned state as specified (R19.19); for 56 configurations, __Is_reducible() implies every slot of the constructor's layout is written by __Spectral (R19.20).")
_more("C20", "Since round 6: Mesher.__Get_partitioned_groupElems INTERPRETED with gmsh answered from a table (R20.12, replaces the syntactic R20.3 / R20.5 / R20.6 which fired on equivalent rewrites): owned nodes disjoint and covering, one owner per element, ghosts == elements of other ranks touching an owned node (a mid-edge node whose end vertices belong to another rank included, lower ranks included), rows == own + ghost; Merge does not glue a sheet to its copy one unit above (R20.10).")

# techniques as of DESIGN 7.8 (the deciding methods actually used)
def _tech(pid, text):
    CHECKS[pid]["technique"] = text


_tech("C01", "exact polynomial / rational-function normal forms of the interpreted source (abstract interpretation of table, index and chain code); interpretation on recorder stubs (beam frame, multiplier system); syntax-directed rules for tolerance-gated control flow and group loops")
_tech("C02", "interpretation of operator code on symbolic element data; exact rank over Q / Q(sqrt d); table folding of Gauss_factory; abstract interpretation of the element systems over the degree-in-thickness domain, both truth values of every flag")
_tech("C03", "interpretation of the assembly on symbolic element entries with a modelled csr_matrix (scatter-add compared entry by entry); label / symbolic-index interpretation; copy-out and group-loop effect rules")
_tech("C04", "abstract interpretation over block selectors and mask/complement domain; interpretation on recorder stubs (multiplier rows, Newton driver, orphan detection, Lagrange condition); must-pass-through; enum exhaustiveness; unused-result rule")
_tech("C05", "AST -> linear forms with rational-function coefficients, identity by normal form; interpretation of the step / Newton drivers with scripted solvers; memo-coverage dataflow; frozen parameter table for the documented schemes")
_tech("C06", "AST -> exact polynomial normal form (abstract interpretation of table code); interpretation of the evaluator with integer-kind arrays modelled (truncation on store)")
_tech("C07", "exact evaluation of tables in Q / Q(sqrt d); constant folding of the factory; polynomial support analysis of det J; interpretation of the geometric chain with integer-kind coordinates; setter-discipline path rules")
_tech("C08", "exact rational geometry on interpreted tables; polynomial identities with triangular reduction; interpretation on recorder groups (mesh motions) and with an exact KD-tree (candidate sets); residual slices of the inverse map on plane and embedded elements")
_tech("C09", "label / symbolic interpretation of the integrator and dispatch code; interpretation of the beam N matrix on a symbolic element (reproduction of admissible polynomial fields); alias / group-loop effect rules")
_tech("C10", "interpretation of frame / change-of-basis code on symbolic and exact rational axes; polynomial identities; memo-coverage dataflow")
_tech("C11", "AST -> rational functions, identity by cross-multiplication; differential interpretation for flag influence; interpretation of constructors and of the rotated law on exact rational axes; typestate and notification-order rules")
_tech("C13", "interpretation of the repository's Field / FeArray / form classes on symbolic data compared with per-point reference semantics; interpretation of Assemble with a modelled csr_matrix; flag-pair and shared-buffer effect rules")
_tech("C14", "effect analysis (attribute stores / reads) + call-graph reachability of invalidators, path-sensitive for setters and mutators; interpretation on recorder stubs (mesh setter, Set_Iter walks, per-problem memos, mesh motions); memo-coverage and snapshot dataflow")
_tech("C15", "interpretation of save / load / restore code on recorder stubs (round trips, restored fields, mesh index); writer/reader key agreement; alias and memo-coverage dataflow")
_tech("C16", "finite-domain constant folding of string dispatch tables + label / symbolic interpretation of Result; polynomial identity for von Mises; storage-location and zero-argument constant propagation")
_tech("C17", "interpretation in a non-commutative polynomial algebra; interpretation under the FeArray protocol model (stress parts); mask-rank dataflow; writer sets and who-may-call rules")
_tech("C18", "AST -> symbolic expressions, derivative identities by normal form (laws, invariants); end-to-end interpretation of every non-linear operator on a symbolic element with polynomial differentiation (residual / tangent / damping identities); exact trigonometry for the Clenshaw-Curtis rule; memo-mutator dataflow")
_tech("C19", "call-graph reachability + effect analysis + interprocedural alias / in-place analysis; polynomial identities over opaque leaves (local Jacobian); parameter-threading and loop-invariance dataflow")
_tech("C20", "interpretation of partition, ownership and save / load code on recorder stubs and overlapping groups; provenance rules over the reduction code")
