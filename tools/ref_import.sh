#!/bin/sh
# tools/ref_import.sh <round-dir>: copy finished refactoring outputs <round-dir>/Cxx/REF/Rk into refactored/Cxx-Rk
rd=$1
for d in "$rd"/C*; do
  p=$(basename "$d")
  for s in "$d"/REF/R*; do
    k=$(basename "$s")
    if [ -f "$s/patch.diff" ] && [ -f "$s/meta.json" ] && [ ! -d "refactored/$p-$k" ]; then
      mkdir -p "refactored/$p-$k"
      cp "$s/patch.diff" "$s/meta.json" "refactored/$p-$k/"
      [ -f "$s/equiv.py" ] && cp "$s/equiv.py" "refactored/$p-$k/"
      echo "imported $p-$k"
    fi
  done
done
