#!/usr/bin/env python3
"""Evaluate seeded changes: tools/seed_eval.py <seed-dir> [<seed-dir> ...]
Each <seed-dir> contains patch.diff, demo.py, meta.json.  On scratch copies of /repo:
 (1) demo must pass on the clean copy and fail with the patch applied;
 (2) every property's quick check runs on the patched copy; the properties whose check exits 1 are recorded.
Prints one JSON line per seed."""
import json, os, shutil, subprocess, sys, tempfile, concurrent.futures as cf

VERIF = os.path.dirname(os.path.dirname(os.path.abspath(__file__)))
PROPS = [f"C{n:02d}" for n in range(1, 21)]


def sh(cmd, cwd=None, env=None, timeout=1200):
    p = subprocess.run(cmd, cwd=cwd, env=env, capture_output=True, text=True, timeout=timeout)
    return p.returncode, p.stdout + p.stderr


def evaluate(seed, props=PROPS, run_demo=True):
    tmp = tempfile.mkdtemp(prefix="verif_seed_")
    try:
        clean = os.path.join(tmp, "clean")
        pat = os.path.join(tmp, "patched")
        for d in (clean, pat):
            os.makedirs(d)
            subprocess.check_call(f"git -C /repo archive HEAD EasyFEA | tar -x -C {d}", shell=True)
        rc, out = sh(["git", "apply", "--unsafe-paths", f"--directory={pat}", os.path.join(seed, "patch.diff")], cwd="/")
        if rc != 0:
            rc, out = sh(["patch", "-p1", "-d", pat, "-i", os.path.join(seed, "patch.diff")])
        if rc != 0:
            return dict(seed=seed, error="patch does not apply: " + out[-300:])
        res = dict(seed=seed)
        if run_demo:
            demo = os.path.join(seed, "demo.py")
            e = dict(os.environ, PYTHONPATH=clean, MPLBACKEND="Agg")
            rc_c, out_c = sh(["/venv/bin/python", demo], cwd=clean, env=e, timeout=900)
            e = dict(os.environ, PYTHONPATH=pat, MPLBACKEND="Agg")
            rc_p, out_p = sh(["/venv/bin/python", demo], cwd=pat, env=e, timeout=900)
            res.update(demo_clean_rc=rc_c, demo_patched_rc=rc_p, demo_patched_tail=out_p[-200:])
        flagged, errors = {}, {}

        def one(p):
            env = dict(os.environ, VERIF_EVIDENCE_DIR=os.path.join(tmp, "ev_" + p))
            rc, out = sh([os.path.join(VERIF, "check"), p, "--tier", "quick", "--root", pat], env=env)
            return p, rc, out

        with cf.ThreadPoolExecutor(max_workers=8) as ex:
            for p, rc, out in ex.map(one, props):
                if rc == 1:
                    flagged[p] = [l for l in out.splitlines() if l.startswith("FINDING")][:3]
                elif rc != 0:
                    errors[p] = out[-300:]
        res.update(flagged=flagged, errors=errors)
        return res
    finally:
        shutil.rmtree(tmp, ignore_errors=True)


if __name__ == "__main__":
    for s in sys.argv[1:]:
        print(json.dumps(evaluate(os.path.abspath(s))))
