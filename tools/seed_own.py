#!/usr/bin/env python3
"""tools/seed_own.py [-j N] <seed-id>...: the seed's OWN property check only (quick tier) on a scratch copy with the patch applied.
Updates meta.json (detected_by_own, own_analysis_error, own_first_finding) and prints one line per seed."""
import concurrent.futures as cf
import json
import os
import sys

sys.path.insert(0, os.path.dirname(os.path.abspath(__file__)))
import seed_eval  # noqa: E402

SD = os.path.join(seed_eval.VERIF, "seeded")


def one(d):
    own = d.split("-")[0]
    res = seed_eval.evaluate(os.path.join(SD, d), props=[own], run_demo=False)
    mp = os.path.join(SD, d, "meta.json")
    meta = json.load(open(mp))
    meta["detected_by_own"] = own in res.get("flagged", {})
    meta["own_analysis_error"] = res.get("errors", {}).get(own, "")[-300:]
    meta["own_first_finding"] = (res.get("flagged", {}).get(own) or [""])[0][:400]
    if meta["detected_by_own"]:
        meta["detected_by"] = sorted(set(meta.get("detected_by", [])) | {own})
    json.dump(meta, open(mp, "w"), indent=1)
    return d, meta, res.get("error")


if __name__ == "__main__":
    a = sys.argv[1:]
    j = 4
    if a and a[0] == "-j":
        j, a = int(a[1]), a[2:]
    with cf.ThreadPoolExecutor(max_workers=j) as ex:
        for d, m, err in ex.map(one, a):
            print(d, "own" if m["detected_by_own"] else ("ANALYSIS-ERROR" if m["own_analysis_error"] else "MISSED-BY-OWN"), err or "", (m["own_first_finding"] or m["own_analysis_error"])[:260].replace("\n", " "), flush=True)
