#!/usr/bin/env python3
"""tools/seed_check.py <seed-id> [<prop> ...]  -- apply one seeded patch to a scratch copy of /repo and run the quick
check of the given properties (default: the seed's own property) on it; prints the verdict lines."""
import json, os, sys

sys.path.insert(0, os.path.dirname(os.path.abspath(__file__)))
import seed_eval  # noqa: E402

seed = sys.argv[1]
props = sys.argv[2:] or [seed.split("-")[0]]
res = seed_eval.evaluate(os.path.join(seed_eval.VERIF, "seeded", seed), props=props, run_demo=False)
if res.get("error"):
    print("ERROR", res["error"])
for p in props:
    if p in res.get("flagged", {}):
        print(seed, p, "FLAGGED", (res["flagged"][p] or [""])[0][:400])
    elif p in res.get("errors", {}):
        print(seed, p, "ANALYSIS-ERROR", res["errors"][p][-300:])
    else:
        print(seed, p, "silent")
