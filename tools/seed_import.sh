#!/bin/sh
# tools/seed_import.sh <round-dir> <letters...>: copy finished sub-agent outputs <round-dir>/Cxx/SEED/<L> into seeded/Cxx-<L>
rd=$1; shift
for d in "$rd"/C*; do
  p=$(basename "$d")
  for L in "$@"; do
    s="$d/SEED/$L"
    if [ -f "$s/patch.diff" ] && [ -f "$s/demo.py" ] && [ -f "$s/meta.json" ] && [ ! -d "seeded/$p-$L" ]; then
      mkdir -p "seeded/$p-$L"
      cp "$s/patch.diff" "$s/demo.py" "$s/meta.json" "seeded/$p-$L/"
      echo "imported $p-$L"
    fi
  done
done
