#!/bin/sh
# usage: tools/check_at.sh <commit> <prop> [tier]   -- run a checker on a scratch export of /repo at <commit>
set -e
C="$1"; P="$2"; T="${3:-quick}"
D=$(mktemp -d /tmp/verif_at.XXXXXX)
trap 'rm -rf "$D"' EXIT
git -C /repo archive "$C" EasyFEA | tar -x -C "$D"
mkdir -p "$D/ev"
cd "$(dirname "$0")/.." && VERIF_EVIDENCE_DIR="$D/ev" ./check "$P" --tier "$T" --root "$D" | grep -v "^  rule" || true
