#!/usr/bin/env python3
"""Generates /verif/MANIFEST.json from the table below (kept in one place so
that the manifest stays valid while checks come online)."""

import json
import os

HERE = os.path.dirname(os.path.dirname(os.path.abspath(__file__)))

BASELINE = "cd /repo && /venv/bin/python -m pytest -ra -q -p no:cacheprovider --timeout=900 --continue-on-collection-errors"

# property -> dict(level, text, note, technique, design)
CHECKS = {}
NA = {}


def claim(pid, level, text, note, technique, design):
    CHECKS[pid] = dict(level=level, text=text, note=note, technique=technique, design=design)


def na(pid, reason):
    NA[pid] = reason


exec(open(os.path.join(HERE, "tools", "claims.py")).read())

checks = []
for pid in sorted(CHECKS):
    c = CHECKS[pid]
    checks.append(
        {
            "property_id": pid,
            "quick_cmd": f"./check {pid} --tier quick",
            "thorough_cmd": f"./check {pid} --tier thorough",
            "evidence_file": f"evidence/{pid}.json",
            "replay_cmd_template": f"./check {pid} --replay {{path}}",
            "engine": "sa",
            "level_claimed": {"category": c["level"], "text": c["text"], "design_ref": c["design"]},
            "level_note": c["note"],
            "technique": c["technique"],
        }
    )

manifest = {
    "version": 1,
    "setup_cmd": "./check --self-check",
    "hooks": {
        "guard": "EASYFEA_VERIF",
        "enable": "none needed: the checkers only parse /repo/EasyFEA/**/*.py (no EasyFEA code is imported or run); the guard variable is declared but no hook exists in the sources",
        "baseline_off_cmd": BASELINE,
        "source_commits": [],
        "add_only": True,
    },
    "engines": [
        {
            "name": "sa",
            "path": "sa/",
            "serves_properties": sorted(CHECKS),
            "kind_free_text": "static analysis over Python ast: resolved program model (classes, MRO, name mangling, call graph), exact-algebra interpreter of table code (polynomials over Q and multiquadratic fields, rational functions, linear forms), label/provenance interpretation, CFG must-pass-through, alias/effect analysis",
        }
    ],
    "checks": checks,
    "notes": open(os.path.join(HERE, "tools", "notes.txt")).read().strip() if os.path.exists(os.path.join(HERE, "tools", "notes.txt")) else "",
    "not_applicable": [{"property_id": p, "reason": NA[p]} for p in sorted(NA) if p not in CHECKS],
}

with open(os.path.join(HERE, "MANIFEST.json"), "w") as fh:
    json.dump(manifest, fh, indent=1)
print(f"MANIFEST.json: {len(checks)} checks, {len(manifest['not_applicable'])} not applicable")
