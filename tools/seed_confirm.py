#!/usr/bin/env python3
"""Confirm seeded changes against the pinned test suite: tools/seed_confirm.py [-j N] <seeded-dir>...
For each directory (patch.diff, demo.py, meta.json): export /repo HEAD to a scratch copy, apply the patch, run the
baseline pytest command there with a junit report, and compare the set of passing tests with BASELINE.json's
stable_pass.  Writes <seeded-dir>/confirm.json.  Scratch copies are removed."""
import concurrent.futures as cf
import json
import os
import shutil
import subprocess
import sys
import tempfile
import xml.etree.ElementTree as ET

BASE = json.load(open("/root/.vp/BASELINE.json"))
STABLE = set(BASE["stable_pass"])


def passed_tests(junit):
    out = set()
    for tc in ET.parse(junit).getroot().iter("testcase"):
        if not any(ch.tag in ("failure", "error", "skipped") for ch in tc):
            out.add(f"{tc.get('classname')}::{tc.get('name')}")
    return out


def confirm(seed):
    tmp = tempfile.mkdtemp(prefix="verif_confirm_")
    try:
        subprocess.check_call(f"git -C /repo archive HEAD | tar -x -C {tmp}", shell=True)
        p = subprocess.run(["git", "apply", "--unsafe-paths", f"--directory={tmp}", os.path.join(seed, "patch.diff")], cwd="/", capture_output=True, text=True)
        if p.returncode != 0:
            p = subprocess.run(["patch", "-p1", "-d", tmp, "-i", os.path.join(seed, "patch.diff")], capture_output=True, text=True)
            if p.returncode != 0:
                return dict(seed=seed, error="patch does not apply")
        junit = os.path.join(tmp, "junit.xml")
        env = dict(os.environ, PYTHONPATH=tmp, MPLBACKEND="Agg")
        cmd = ["/venv/bin/python", "-m", "pytest", "-ra", "-q", "-p", "no:cacheprovider", "--timeout=900", "--continue-on-collection-errors", f"--junitxml={junit}"]
        p = subprocess.run(cmd, cwd=tmp, env=env, capture_output=True, text=True, timeout=3600)
        tail = p.stdout.strip().splitlines()[-1] if p.stdout.strip() else ""
        ok = passed_tests(junit) if os.path.exists(junit) else set()
        missing = sorted(STABLE - ok)
        res = dict(seed=os.path.basename(seed), pytest_summary=tail, stable_pass_total=len(STABLE), stable_pass_still_passing=len(STABLE & ok), newly_failing=missing[:20], suite_passes=not missing)
        json.dump(res, open(os.path.join(seed, "confirm.json"), "w"), indent=1)
        return res
    finally:
        shutil.rmtree(tmp, ignore_errors=True)


if __name__ == "__main__":
    a = sys.argv[1:]
    j = 6
    if a and a[0] == "-j":
        j = int(a[1])
        a = a[2:]
    with cf.ThreadPoolExecutor(max_workers=j) as ex:
        for r in ex.map(confirm, [os.path.abspath(x) for x in a]):
            print(json.dumps(r), flush=True)
