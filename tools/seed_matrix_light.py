#!/usr/bin/env python3
"""tools/seed_matrix_light.py [-j N] <seed-id>...: like seed_matrix.py for the given seeds, but runs only the checks that can see
the change: the seed's own property and every property whose evidence lists a changed file under files_consulted.  Updates
meta.json (detected_by, analysis_errors, first_finding, suite_with_patch)."""
import concurrent.futures as cf
import glob
import json
import os
import sys

sys.path.insert(0, os.path.dirname(os.path.abspath(__file__)))
import seed_eval  # noqa: E402

SD = os.path.join(seed_eval.VERIF, "seeded")
CONS = {}
for p in glob.glob(os.path.join(seed_eval.VERIF, "evidence", "C*.json")):
    e = json.load(open(p))
    CONS[e["property_id"]] = set(e["coverage"].get("files_consulted", {}))


def one(d):
    files = {l[6:].strip() for l in open(os.path.join(SD, d, "patch.diff")) if l.startswith("+++ b/")}
    props = sorted({d.split("-")[0]} | {p for p, c in CONS.items() if c & files})
    res = seed_eval.evaluate(os.path.join(SD, d), props=props, run_demo=False)
    mp = os.path.join(SD, d, "meta.json")
    meta = json.load(open(mp))
    meta["detected_by"] = sorted(res.get("flagged", {}))
    meta["analysis_errors"] = sorted(res.get("errors", {}))
    meta["checks_run"] = props
    meta["first_finding"] = {p: (l[0][:400] if l else "") for p, l in res.get("flagged", {}).items()}
    cp = os.path.join(SD, d, "confirm.json")
    if os.path.exists(cp):
        c = json.load(open(cp))
        meta["suite_with_patch"] = c.get("pytest_summary")
        meta["suite_passes"] = c.get("suite_passes")
    json.dump(meta, open(mp, "w"), indent=1)
    return d, meta


if __name__ == "__main__":
    a = sys.argv[1:]
    j = 2
    if a and a[0] == "-j":
        j, a = int(a[1]), a[2:]
    with cf.ThreadPoolExecutor(max_workers=j) as ex:
        for d, m in ex.map(one, a):
            print(d, "own" if d.split("-")[0] in m["detected_by"] else "MISSED-BY-OWN", "detected_by", m["detected_by"], "errors", m["analysis_errors"], flush=True)
