#!/bin/sh
# tools/seed_show.sh <seed-dir>...   evaluate and print a compact summary
for d in "$@"; do timeout 1500 /venv/bin/python /verif/tools/seed_eval.py $d | /venv/bin/python -c "
import json,sys
d=json.loads(sys.stdin.read()); print(d['seed'], 'demo clean/patched rc:', d.get('demo_clean_rc'), d.get('demo_patched_rc'), 'FLAGGED BY:', list(d.get('flagged',{})), 'errors:', list(d.get('errors',{})), d.get('error',''))
for p,l in d.get('flagged',{}).items(): print('   ',p, l[0][:300] if l else '')
for p,l in d.get('errors',{}).items(): print('   ERR',p, l[-250:])"; done
