#!/bin/sh
# tools/run_all.sh [tier]  -- run every property's check in parallel on /repo; prints one verdict line per property
T="${1:-quick}"
cd "$(dirname "$0")/.." || exit 2
for n in $(seq -w 1 20); do
  ( ./check C$n --tier $T > /tmp/verif_runall_C$n.log 2>&1; echo "C$n rc=$? $(grep -E '^(OK|VIOLATION|ANALYSIS-ERROR)' /tmp/verif_runall_C$n.log | head -2 | tr '\n' ' ')" ) &
done
wait
rm -f /tmp/verif_runall_C*.log
