#!/usr/bin/env python3
"""tools/ref_report.py [-j N]: run the own-property quick check on every behaviour-preserving rewrite under /verif/refactored
and write refactored/EVAL.md (expected: exit 0 everywhere; the rewrites listed in KNOWN_LIMITS.json are reported apart)."""
import concurrent.futures as cf
import json
import os
import sys

sys.path.insert(0, os.path.dirname(os.path.abspath(__file__)))
import seed_eval  # noqa: E402

RD = os.path.join(seed_eval.VERIF, "refactored")


def one(d):
    own = d.split("-")[0]
    res = seed_eval.evaluate(os.path.join(RD, d), props=[own], run_demo=False)
    st = "patch does not apply" if res.get("error") else ("FALSE ALARM" if res.get("flagged") else ("analysis error" if res.get("errors") else "silent"))
    detail = ""
    if res.get("flagged"):
        detail = list(res["flagged"].values())[0][0][:200] if list(res["flagged"].values())[0] else ""
    elif res.get("errors"):
        detail = list(res["errors"].values())[0][-200:].replace("\n", " ")
    return d, st, detail


if __name__ == "__main__":
    j = 4
    a = sys.argv[1:]
    if a and a[0] == "-j":
        j = int(a[1])
    dirs = sorted(x for x in os.listdir(RD) if os.path.isdir(os.path.join(RD, x)))
    limits = json.load(open(os.path.join(RD, "KNOWN_LIMITS.json")))
    rows = []
    with cf.ThreadPoolExecutor(max_workers=j) as ex:
        for r in ex.map(one, dirs):
            rows.append(r)
            print(*r[:2], flush=True)
    with open(os.path.join(RD, "EVAL.md"), "w") as fh:
        n = {s: sum(1 for r in rows if r[1] == s) for s in ("silent", "FALSE ALARM", "analysis error", "patch does not apply")}
        fh.write("# Behaviour-preserving rewrites x own-property check\n\nEach directory holds a rewrite written by a sub-agent that saw only the property text (`patch.diff`, `equiv.py`: identical digests on the clean and the rewritten tree, `meta.json`). Expected verdict: exit 0.\n\n")
        fh.write(f"{len(rows)} rewrites: {n['silent']} silent, {n['FALSE ALARM']} false alarms, {n['analysis error']} analysis errors ({', '.join(sorted(limits))} are recorded limits), {n['patch does not apply']} no longer apply.\n\n| rewrite | verdict | file changed | kind | detail |\n|---|---|---|---|---|\n")
        for d, st, detail in rows:
            try:
                meta = json.load(open(os.path.join(RD, d, "meta.json")))
            except Exception:
                meta = {}
            files = sorted({l[6:].strip() for l in open(os.path.join(RD, d, "patch.diff")) if l.startswith("+++ b/")})
            fh.write(f"| {d} | {st}{' (recorded limit)' if d in limits else ''} | {', '.join(files)} | {str(meta.get('kind', ''))[:80]} | {detail.replace('|', '/')} |\n")
