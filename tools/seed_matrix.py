#!/usr/bin/env python3
"""Re-establish the seeded-changes x checks matrix: tools/seed_matrix.py [-j N]
For every /verif/seeded/<id>/ (patch.diff, demo.py, meta.json): demo on a clean and on a patched scratch copy, all 20
quick checks on the patched copy.  Records "detected_by", "analysis_errors", "demo_clean_rc", "demo_patched_rc" in
meta.json and writes /verif/seeded/MATRIX.md."""
import concurrent.futures as cf
import json
import os
import sys

sys.path.insert(0, os.path.dirname(os.path.abspath(__file__)))
import seed_eval  # noqa: E402

VERIF = seed_eval.VERIF
SD = os.path.join(VERIF, "seeded")


def one(d):
    res = seed_eval.evaluate(os.path.join(SD, d))
    mp = os.path.join(SD, d, "meta.json")
    meta = json.load(open(mp))
    meta["detected_by"] = sorted(res.get("flagged", {}))
    meta["analysis_errors"] = sorted(res.get("errors", {}))
    meta["demo_clean_rc"] = res.get("demo_clean_rc")
    meta["demo_patched_rc"] = res.get("demo_patched_rc")
    meta["first_finding"] = {p: (l[0][:400] if l else "") for p, l in res.get("flagged", {}).items()}
    cp = os.path.join(SD, d, "confirm.json")
    if os.path.exists(cp):
        c = json.load(open(cp))
        meta["suite_with_patch"] = c.get("pytest_summary")
        meta["suite_passes"] = c.get("suite_passes")
    json.dump(meta, open(mp, "w"), indent=1)
    return d, meta


if __name__ == "__main__":
    j = 4
    a = sys.argv[1:]
    if a and a[0] == "-j":
        j = int(a[1])
        a = a[2:]
    dirs = a or sorted(x for x in os.listdir(SD) if os.path.isdir(os.path.join(SD, x)))
    rows = []
    with cf.ThreadPoolExecutor(max_workers=j) as ex:
        for d, m in ex.map(one, dirs):
            own = d.split("-")[0]
            rows.append((d, own, m))
            print(d, "detected_by", m["detected_by"], "errors", m["analysis_errors"], "demo", m["demo_clean_rc"], m["demo_patched_rc"], flush=True)
    if not a:
        with open(os.path.join(SD, "MATRIX.md"), "w") as fh:
            fh.write("# Seeded changes x checks\n\nEach row: a change written by a fresh sub-agent that saw only the property text; `own` = the check of the property it was written against.\n\n")
            fh.write("| seed | suite with patch | demo clean/patched | detected by own check | all checks that flag it | file changed |\n|---|---|---|---|---|---|\n")
            for d, own, m in rows:
                files = sorted({l[6:].strip() for l in open(os.path.join(SD, d, "patch.diff")) if l.startswith("+++ b/")})
                fh.write(f"| {d} | {m.get('suite_with_patch', '?')} | {m['demo_clean_rc']}/{m['demo_patched_rc']} | {'yes' if own in m['detected_by'] else 'NO'} | {', '.join(m['detected_by']) or '-'} | {', '.join(files)} |\n")
