#!/usr/bin/env python3
"""tools/coverage_gap.py -- which functions inside the line ranges a property is anchored in were never fetched by
that property's checker?  Reads /verif/properties.jsonl and the evidence files of the last run (functions_fetched).
A listed function is not necessarily relevant to a decidable clause; the list is a to-do aid, not a verdict."""
import ast, glob, json, os, re, sys

funcs = {}
for f in glob.glob("/repo/EasyFEA/**/*.py", recursive=True):
    rel = os.path.relpath(f, "/repo")
    out = []

    def walk(node, prefix):
        for n in getattr(node, "body", []):
            if isinstance(n, (ast.FunctionDef, ast.AsyncFunctionDef)):
                out.append((n.lineno, n.end_lineno, prefix + n.name))
            elif isinstance(n, ast.ClassDef):
                walk(n, prefix + n.name + ".")

    walk(ast.parse(open(f).read()), "")
    funcs[rel] = out
here = os.path.dirname(os.path.dirname(os.path.abspath(__file__)))
for l in open(os.path.join(here, "properties.jsonl")):
    p = json.loads(l)
    pid = p["id"]
    if len(sys.argv) > 1 and pid not in sys.argv[1:]:
        continue
    ev = json.load(open(os.path.join(here, "evidence", pid + ".json")))
    fetched = set(ev["coverage"].get("functions_fetched", []))
    for r in ev["coverage"].get("rules", []):
        fetched |= set(r.get("functions_analysed", []))
    short = set()
    for fn in fetched:
        parts = fn.split(".")
        short.add(parts[-1])
        short.add(".".join(parts[-2:]))
    anchored = set()

    def scan(o):
        if isinstance(o, dict):
            for v in o.values():
                scan(v)
        elif isinstance(o, list):
            for v in o:
                scan(v)
        elif isinstance(o, str):
            for m in re.finditer(r"(EasyFEA/[\w/]+\.py):([\d,\-]+)", o):
                for rg in m.group(2).split(","):
                    if not rg:
                        continue
                    a, _, b = rg.partition("-")
                    a = int(a)
                    b = int(b or a)
                    for s, e, name in funcs.get(m.group(1), []):
                        if s <= b and e >= a:
                            anchored.add((m.group(1), name))

    scan(p["anchors"])
    miss = sorted((f, n) for f, n in anchored if n not in short and n.split(".")[-1] not in short)
    print(pid, "anchored", len(anchored), "never fetched", len(miss))
    for f, n in miss:
        print("    ", f, n)
