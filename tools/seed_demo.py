#!/usr/bin/env python3
"""tools/seed_demo.py [-j N] <seeded-dir>...: run each seed's demo.py on a clean export of /repo HEAD and on the export with the
patch applied; records demo_clean_rc / demo_patched_rc / demo_patched_tail in <seeded-dir>/demo.json."""
import concurrent.futures as cf
import json
import os
import shutil
import subprocess
import sys
import tempfile


def one(seed):
    tmp = tempfile.mkdtemp(prefix="verif_demo_")
    try:
        res = dict(seed=os.path.basename(seed))
        for kind in ("clean", "patched"):
            d = os.path.join(tmp, kind)
            os.makedirs(d)
            subprocess.check_call(f"git -C /repo archive HEAD EasyFEA | tar -x -C {d}", shell=True)
            if kind == "patched":
                p = subprocess.run(["git", "apply", "--unsafe-paths", f"--directory={d}", os.path.join(seed, "patch.diff")], cwd="/", capture_output=True, text=True)
                if p.returncode != 0:
                    res["error"] = "patch does not apply"
                    break
            env = dict(os.environ, PYTHONPATH=d, MPLBACKEND="Agg")
            try:
                p = subprocess.run(["/venv/bin/python", os.path.join(seed, "demo.py")], cwd=d, env=env, capture_output=True, text=True, timeout=600)
                res[f"demo_{kind}_rc"] = p.returncode
                res[f"demo_{kind}_tail"] = (p.stdout + p.stderr)[-300:]
            except subprocess.TimeoutExpired:
                res[f"demo_{kind}_rc"] = "timeout"
        res["demonstrates"] = res.get("demo_clean_rc") == 0 and res.get("demo_patched_rc") not in (0, None, "timeout")
        json.dump(res, open(os.path.join(seed, "demo.json"), "w"), indent=1)
        return res
    finally:
        shutil.rmtree(tmp, ignore_errors=True)


if __name__ == "__main__":
    a = sys.argv[1:]
    j = 4
    if a and a[0] == "-j":
        j, a = int(a[1]), a[2:]
    with cf.ThreadPoolExecutor(max_workers=j) as ex:
        for r in ex.map(one, [os.path.abspath(x) for x in a]):
            print(r["seed"], "OK" if r.get("demonstrates") else "NOT-DEMONSTRATED", r.get("demo_clean_rc"), r.get("demo_patched_rc"), r.get("error", ""), flush=True)
