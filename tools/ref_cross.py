#!/usr/bin/env python3
"""tools/ref_cross.py [-j N] [out.jsonl]: every behaviour-preserving rewrite against the checks of the OTHER properties that
consult a file it changes (refactored/cross_plan.json, from the files_consulted lists of the evidence).  Expected: exit 0."""
import concurrent.futures as cf
import json
import os
import sys

sys.path.insert(0, os.path.dirname(os.path.abspath(__file__)))
import seed_eval  # noqa: E402

RD = os.path.join(seed_eval.VERIF, "refactored")


def one(item):
    d, props = item
    if not props:
        return dict(patch=d, false_alarms={}, analysis_errors={})
    res = seed_eval.evaluate(os.path.join(RD, d), props=props, run_demo=False)
    return dict(patch=d, error=res.get("error"), false_alarms={k: (v[0][:300] if v else "") for k, v in res.get("flagged", {}).items()}, analysis_errors={k: v[-300:] for k, v in res.get("errors", {}).items()})


if __name__ == "__main__":
    a = sys.argv[1:]
    j = 3
    if a and a[0] == "-j":
        j, a = int(a[1]), a[2:]
    out = a[0] if a else os.path.join(RD, "cross_eval.jsonl")
    plan = json.load(open(os.path.join(RD, "cross_plan.json")))
    with open(out, "w") as fh, cf.ThreadPoolExecutor(max_workers=j) as ex:
        for r in ex.map(one, sorted(plan.items())):
            fh.write(json.dumps(r) + "\n")
            fh.flush()
            if r.get("false_alarms") or r.get("analysis_errors"):
                print(json.dumps(r)[:600], flush=True)
